// UNIT V-POS (C12, C05): dic/build/lexicon.rs  LexiconReader::preload_pos / pos_of / write_pos_table -- how the dictionary compiler numbers
// parts of speech.  The table is an insertion-ordered map (IndexMap) from the six part-of-speech strings to an id; this unit decides that
// an id IS the position in that order (pos_wf), that a user dictionary starts numbering its own parts of speech right after those of the
// system dictionary it is compiled against, and that the table written to the binary holds exactly the new ones, in id order.
use vstd::prelude::*;
use vstd::string::*;
verus! {
global size_of usize == 8;
//@include common/error.rs.inc
//@include common/build_prelude.rs.inc
//@include common/wordid_stub.rs.inc
//@extract sudachi/src/analysis/mod.rs :: enum Mode
//@  derive Clone, Copy, PartialEq, Eq, Structural
//@end
impl From<IoErr> for SudachiError { #[verifier::external_body] fn from(e: IoErr) -> SudachiError { SudachiError::Other } }
#[verifier::external_body] pub struct DicCompilationCtx { _p: () }
impl DicCompilationCtx {
    #[verifier::external_body] fn default() -> DicCompilationCtx { unimplemented!() }
    #[verifier::external_body] fn set_filename(&mut self, new_name: String) -> String { unimplemented!() }
    #[verifier::external_body] fn add_line(&mut self, offset: usize) { unimplemented!() }
    /// `ctx.apply(|| f)`: passes a success through and wraps a failure (R17c: the closure is evaluated at the call site)
    #[verifier::external_body] fn apply_result<T>(&self, result: DicWriteResult<T>) -> (r: SudachiResult<T>)
        ensures result is Ok ==> r is Ok && r->Ok_0 == result->Ok_0, result is Err ==> r is Err { unimplemented!() }
}
#[verifier::external_body] fn err_string() -> String { String::new() }   // R12: message texts are not verified
#[verifier::external_body] fn str_to_owned(s: &str) -> (r: String) ensures r@ == s@ { s.to_owned() }
pub const POS_DEPTH: usize = 6;
//@extract sudachi/src/dic/build/mod.rs :: const MAX_POS_IDS
//@end

/// the six strings of a part of speech
pub type PosKey = Seq<Seq<char>>;
/// `[Cow<str>; POS_DEPTH]` (opaque; only its six strings matter)
#[verifier::external_body] pub struct PosData<'a> { _p: core::marker::PhantomData<&'a ()> }
impl<'a> PosData<'a> { pub uninterp spec fn key(&self) -> PosKey; }
/// `&Cow<'static, str>`
#[verifier::external_body] pub struct CowStr { _p: () }
impl CowStr {
    pub uninterp spec fn text(&self) -> Seq<char>;
    #[verifier::external_body] fn as_str(&self) -> (r: &str) ensures r@ == self.text() { unimplemented!() }
}
/// StrPosEntry: ASSUMED opaque (Cow re-wrapping, iterator adapters); its constructors keep the six strings
#[verifier::external_body] pub struct StrPosEntry { _p: () }
impl StrPosEntry {
    pub uninterp spec fn key(&self) -> PosKey;
    #[verifier::external_body]
    pub fn new(data: PosData) -> (r: StrPosEntry) ensures r.key() == data.key() { unimplemented!() }
    #[verifier::external_body]
    pub fn from_built_pos(data: &Vec<String>) -> (r: StrPosEntry)
        requires data@.len() >= 6
        ensures r.key().len() == 6, forall|k: int| 0 <= k < 6 ==> #[trigger] r.key()[k] == data@[k]@
    { unimplemented!() }
    #[verifier::external_body]
    pub fn fields(&self) -> (r: &[CowStr; 6]) ensures r@.len() == 6, forall|k: int| 0 <= k < 6 ==> (#[trigger] r@[k]).text() == self.key()[k] { unimplemented!() }
}
/// R14: `IndexMap<StrPosEntry, u16>`: ASSUMED contract of an insertion-ordered map with distinct keys
#[verifier::external_body] pub struct PosTable { _p: () }
impl PosTable {
    pub uninterp spec fn ents(&self) -> Seq<(PosKey, u16)>;
    #[verifier::external_body]
    fn new() -> (r: PosTable) ensures r.ents().len() == 0 { unimplemented!() }
    #[verifier::external_body]
    fn len(&self) -> (r: usize) ensures r == self.ents().len() { unimplemented!() }
    #[verifier::external_body]
    fn get(&self, data: &PosData) -> (r: Option<&u16>)
        ensures
            r is Some ==> exists|i: int| 0 <= i < self.ents().len() && (#[trigger] self.ents()[i]).0 == data.key() && *r->Some_0 == self.ents()[i].1,
            r is None ==> forall|i: int| 0 <= i < self.ents().len() ==> (#[trigger] self.ents()[i]).0 != data.key(),
    { unimplemented!() }
    /// insert: a new key is appended at the end; an existing key keeps its place and gets the new value
    #[verifier::external_body]
    fn insert(&mut self, key: StrPosEntry, v: u16)
        ensures
            (forall|i: int| 0 <= i < old(self).ents().len() ==> (#[trigger] old(self).ents()[i]).0 != key.key()) ==> final(self).ents() == old(self).ents().push((key.key(), v)),
            forall|i: int| 0 <= i < old(self).ents().len() && (#[trigger] old(self).ents()[i]).0 == key.key() ==> final(self).ents() == old(self).ents().update(i, (key.key(), v)),
    { unimplemented!() }
    /// R6i: `for (row, pos_id) in self.pos.iter()` visits the entries in insertion order
    #[verifier::external_body]
    fn entry_at(&self, i: usize) -> (r: (&StrPosEntry, &u16))
        requires i < self.ents().len()
        ensures r.0.key() == self.ents()[i as int].0, *r.1 == self.ents()[i as int].1
    { unimplemented!() }
}
pub struct Grammar<'a> { pub pos_list: Vec<Vec<String>>, _p: core::marker::PhantomData<&'a ()> }
pub struct Utf16Writer { _p: () }
//@include specs/wiw_specs_min.rs.inc
impl Utf16Writer {
    #[verifier::external_body] fn new() -> Utf16Writer { unimplemented!() }
// the UTF-16 payload encoder: contract discharged on the real loops in unit v_utf16 (same contract file)
//@extract sudachi/src/dic/build/primitives.rs :: impl Utf16Writer :: fn write
//@  rw R15 1 custom
//@  | <W: Write, T: AsRef<str>>\(&mut self, w: &mut W, data: T\)
//@  > <W: VWrite>(&mut self, w: &mut W, data: &str)
//@  stub v_utf16
//@  ret r
//@  specfile specs/utf16_write.contract
//@end
}

//@extract sudachi/src/dic/build/lexicon.rs :: enum SplitUnit
//@  derive
//@end
//@extract sudachi/src/dic/build/lexicon.rs :: struct RawLexiconEntry
//@end
//@extract sudachi/src/dic/build/lexicon.rs :: struct LexiconReader
//@  rw R14 1 custom
//@  | IndexMap<StrPosEntry, u16>
//@  > PosTable
//@end

/// C12: an id is the position of its part of speech in the table, and no part of speech occurs twice
spec fn pos_wf(t: Seq<(PosKey, u16)>) -> bool {
    &&& t.len() <= 0x8000
    &&& forall|i: int| 0 <= i < t.len() ==> (#[trigger] t[i]).1 as int == i
    &&& forall|i: int, j: int| 0 <= i < j < t.len() ==> (#[trigger] t[i]).0 != (#[trigger] t[j]).0
}
spec fn pos_keys(l: Seq<Vec<String>>, k: int) -> PosKey { Seq::new(6, |f: int| l[k]@[f]@) }
/// the part-of-speech list of the system grammar: six strings each, pairwise different (it was written by this compiler)
spec fn grammar_pos_ok(l: Seq<Vec<String>>) -> bool {
    &&& l.len() <= 0x8000
    &&& forall|k: int| 0 <= k < l.len() ==> (#[trigger] l[k])@.len() >= 6
    &&& forall|i: int, j: int| 0 <= i < j < l.len() ==> #[trigger] pos_keys(l, i) != #[trigger] pos_keys(l, j)
}
/// bytes of the rows start..n of the table: six length-prefixed UTF-16 strings per row
spec fn row_bytes(k: PosKey) -> Seq<u8> { enc_str(k[0]) + enc_str(k[1]) + enc_str(k[2]) + enc_str(k[3]) + enc_str(k[4]) + enc_str(k[5]) }
spec fn rows_bytes(t: Seq<(PosKey, u16)>, start: int, n: int) -> Seq<u8> decreases n
{ if n <= start || n <= 0 { Seq::empty() } else { rows_bytes(t, start, n - 1) + row_bytes(t[n - 1].0) } }

impl LexiconReader {
//@extract sudachi/src/dic/build/lexicon.rs :: impl LexiconReader :: fn preload_pos
//@  rw R3e 1 custom
//@  | assert_eq!\(self\.pos\.len\(\), 0\);
//@  > assert(self.pos.ents().len() == 0);
//@  rw R6 1
//@  spec
        requires old(self).pos.ents().len() == 0, grammar_pos_ok(grammar.pos_list@)
        ensures
            // C12: the system parts of speech keep their ids, and a user dictionary numbers its own ones from there on
            final(self).pos.ents().len() == grammar.pos_list@.len(), final(self).start_pos == grammar.pos_list@.len(),
            forall|k: int| 0 <= k < grammar.pos_list@.len() ==> #[trigger] final(self).pos.ents()[k] == (pos_keys(grammar.pos_list@, k), k as u16),
            pos_wf(final(self).pos.ents()), final(self).entries == old(self).entries,
//@  loop 1
            invariant
                grammar_pos_ok(grammar.pos_list@), __it_i <= grammar.pos_list@.len(), self.entries == old(self).entries,
                self.pos.ents().len() == __it_i,
                forall|k: int| 0 <= k < __it_i ==> #[trigger] self.pos.ents()[k] == (pos_keys(grammar.pos_list@, k), k as u16),
            decreases grammar.pos_list@.len() - __it_i
//@  after let key = StrPosEntry::from_built_pos(pos);
            proof {
                assert(key.key() =~= pos_keys(grammar.pos_list@, i as int));
                assert forall|k: int| 0 <= k < self.pos.ents().len() implies (#[trigger] self.pos.ents()[k]).0 != key.key() by {
                    assert(self.pos.ents()[k].0 == pos_keys(grammar.pos_list@, k));
                }
            }
//@  atend
        proof {
            let t = self.pos.ents();
            assert forall|a: int, b: int| 0 <= a < b < t.len() implies (#[trigger] t[a]).0 != (#[trigger] t[b]).0 by {
                assert(t[a].0 == pos_keys(grammar.pos_list@, a) && t[b].0 == pos_keys(grammar.pos_list@, b));
            }
        }
//@end
//@extract sudachi/src/dic/build/lexicon.rs :: impl LexiconReader :: fn pos_of
//@  rw R14t 1 custom
//@  | data: \[Cow<str>; POS_DEPTH\]
//@  > data: PosData
//@  rw R12 1 custom
//@  | BuildFailure::PosLimitExceeded\(format!\("\{:\?\}", key\)\)
//@  > BuildFailure::Other
//@  ret r
//@  spec
        requires pos_wf(old(self).pos.ents())
        ensures
            pos_wf(final(self).pos.ents()), final(self).start_pos == old(self).start_pos, final(self).entries == old(self).entries,
            // C12: a part of speech seen before keeps its id; a new one gets the next id and is appended; nothing else changes
            r is Ok ==> (r->Ok_0 as int) < final(self).pos.ents().len() && final(self).pos.ents()[r->Ok_0 as int].0 == data.key(),
            r is Ok ==> (final(self).pos.ents() == old(self).pos.ents() || final(self).pos.ents() == old(self).pos.ents().push((data.key(), old(self).pos.ents().len() as u16))),
            r is Err ==> final(self).pos.ents() == old(self).pos.ents(),
//@end
//@extract sudachi/src/dic/build/lexicon.rs :: impl LexiconReader :: fn write_pos_table
//@  rw R15 1 custom
//@  | <W: Write>
//@  > <W: VWrite>
//@  rw R13b 1 custom
//@  | w\.write_all\(&u16::to_le_bytes\(real_count as u16\)\)\?;
//@  > w.write_all(u16_to_le_bytes(real_count as u16).as_slice())?;
//@  rw R12 1 custom
//@  | ctx\.set_filename\("<pos-table>"\.to_owned\(\)\);
//@  > ctx.set_filename(err_string());
//@  rw R6i 1 custom
//@  | for \(row, pos_id\) in self\.pos\.iter\(\) \{
//@  > let mut __ip: usize = 0; while __ip < self.pos.len() { let (row, pos_id) = self.pos.entry_at(__ip); __ip += 1;
//@  rw R6f 1 custom
//@  | for field in row\.fields\(\) \{
//@  > let __fl = row.fields(); let mut __if: usize = 0; while __if < 6 { let field = &__fl[__if]; __if += 1;
//@  rw R17c 1 custom
//@  | ctx\.apply\(\|\| u16w\.write\(w, field\)\.map\(\|written\| written_bytes \+= written\)\)\?;
//@  > written_bytes += ctx.apply_result(u16w.write(w, field.as_str()))?;
//@  ret r
//@  spec
        requires pos_wf(self.pos.ents()), self.start_pos <= self.pos.ents().len()
        ensures
            // C12 / C05: the binary holds the number of NEW parts of speech and then exactly their strings, in id order
            r is Ok ==> final(w).sink() == old(w).sink() + le16u((self.pos.ents().len() - self.start_pos) as u16)
                + rows_bytes(self.pos.ents(), self.start_pos as int, self.pos.ents().len() as int),
            // the reported size is the number of bytes written (the caller adds it to the offset of the sections that follow)
            r is Ok ==> r->Ok_0 == 2 + rows_bytes(self.pos.ents(), self.start_pos as int, self.pos.ents().len() as int).len(),
//@  atstart
        let ghost s0 = w.sink();
        let ghost t = self.pos.ents();
        let ghost sp = self.start_pos as int;
//@  loop 1
            invariant
                t == self.pos.ents(), pos_wf(t), sp == self.start_pos, sp <= t.len(), __ip <= t.len(),
                written_bytes <= 2 + 3_600_000 * __ip, written_bytes == 2 + rows_bytes(t, sp, __ip as int).len(),
                w.sink() == s0 + le16u((t.len() - sp) as u16) + rows_bytes(t, sp, __ip as int),
            decreases t.len() - __ip
//@  loop 2
                invariant
                    t == self.pos.ents(), pos_wf(t), sp == self.start_pos, sp <= t.len(), 0 < __ip <= t.len(), sp <= __ip - 1, __if <= 6,
                    __fl@.len() == 6, forall|k: int| 0 <= k < 6 ==> (#[trigger] __fl@[k]).text() == t[__ip - 1].0[k],
                    written_bytes <= 2 + 3_600_000 * (__ip - 1) + 600_000 * __if,
                    written_bytes == 2 + rows_bytes(t, sp, __ip - 1).len() + fields_bytes(t[__ip - 1].0, __if as int).len(),
                    w.sink() == s0 + le16u((t.len() - sp) as u16) + rows_bytes(t, sp, __ip - 1) + fields_bytes(t[__ip - 1].0, __if as int),
                decreases 6 - __if
//@  before if (*pos_id as usize)
            proof {
                assert((*pos_id) as int == __ip - 1);
                if __ip - 1 < sp { assert(rows_bytes(t, sp, __ip as int) == Seq::<u8>::empty()); assert(rows_bytes(t, sp, __ip - 1) == Seq::<u8>::empty()); }
            }
//@  before let __fl = row.fields();
            proof { assert(w.sink() + fields_bytes(t[__ip - 1].0, 0) =~= w.sink()); }
//@  after written_bytes += ctx.apply_result(
                proof {
                    let k = t[__ip - 1].0;
                    let base = s0 + le16u((t.len() - sp) as u16) + rows_bytes(t, sp, __ip - 1);
                    assert(base + fields_bytes(k, __if - 1) + enc_str(k[__if - 1]) =~= base + fields_bytes(k, __if as int));
                }
//@  before ctx.add_line(1);
            proof {
                let k = t[__ip - 1].0;
                let base = s0 + le16u((t.len() - sp) as u16);
                lemma_fields_all(k);
                assert(base + rows_bytes(t, sp, __ip - 1) + row_bytes(k) =~= base + rows_bytes(t, sp, __ip as int));
            }
//@end
}
/// the first n fields of a row
spec fn fields_bytes(k: PosKey, n: int) -> Seq<u8> decreases n { if n <= 0 { Seq::empty() } else { fields_bytes(k, n - 1) + enc_str(k[n - 1]) } }
proof fn lemma_fields_all(k: PosKey) ensures fields_bytes(k, 6) =~= row_bytes(k) { reveal_with_fuel(fields_bytes, 8); }

/// C12: the id a user dictionary stores for its j-th own part of speech is start_pos + j, and the j-th row of the table it writes holds
/// that part of speech's strings -- so a reader that appends the table's rows after the system list (Grammar::merge, v_merge) finds the
/// declared strings at exactly the stored id
proof fn theorem_user_pos_numbering(t: Seq<(PosKey, u16)>, start: int, id: int)
    requires pos_wf(t), 0 <= start <= id < t.len()
    ensures t[id].1 as int == id, id - start >= 0, t.subrange(start, t.len() as int)[id - start].0 == t[id].0
{}

// ===== C12 / C05 (session 5): the table `write_pos_table` emits, READ BACK.  `dec_pos_table` is what the reader of the grammar section
// ===== (dic/grammar.rs pos_list_parser: le_u16 count, then count x 6 length-prefixed UTF-16 strings) denotes over bytes; v_gramrd uses the
// ===== same definition (specs/pos_table_rd.rs.inc) as the meaning of the assumed nom combinators.
//@include specs/wi_format_cursor.rs.inc
//@include specs/codec_lemmas16.rs.inc
//@include specs/pos_table_rd.rs.inc
spec fn key_fits(k: PosKey) -> bool { k.len() == 6 && forall|f: int| 0 <= f < 6 ==> str_fits(#[trigger] k[f]) }
proof fn lemma_fields_decode(k: PosKey, n: int, rest: Seq<u8>)
    requires key_fits(k), 0 <= n <= 6
    ensures dec_fields(fields_tail(k, n) + rest, 6 - n) == Some((rest, k.subrange(n, 6)))
    decreases 6 - n
{
    if n == 6 {
        assert(fields_tail(k, 6) + rest =~= rest);
        assert(k.subrange(6, 6) =~= Seq::<Seq<char>>::empty());
    } else {
        lemma_fields_decode(k, n + 1, rest);
        assert(fields_tail(k, n) + rest =~= enc_str(k[n]) + (fields_tail(k, n + 1) + rest));
        lemma_dec_str(k[n], fields_tail(k, n + 1) + rest);
        assert(seq![k[n]] + k.subrange(n + 1, 6) =~= k.subrange(n, 6));
    }
}
/// the fields n..6 of a row, front to back
spec fn fields_tail(k: PosKey, n: int) -> Seq<u8> decreases 6 - n { if n >= 6 { Seq::empty() } else { enc_str(k[n]) + fields_tail(k, n + 1) } }
proof fn lemma_row_is_tail(k: PosKey) requires k.len() == 6 ensures row_bytes(k) =~= fields_tail(k, 0)
{ reveal_with_fuel(fields_tail, 8); }
proof fn lemma_rows_front(t: Seq<(PosKey, u16)>, start: int, n: int)
    requires 0 <= start < n <= t.len()
    ensures rows_bytes(t, start, n) =~= row_bytes(t[start].0) + rows_bytes(t, start + 1, n)
    decreases n
{
    if n == start + 1 {
        assert(rows_bytes(t, start, n - 1) =~= Seq::<u8>::empty());
        assert(rows_bytes(t, start + 1, n) =~= Seq::<u8>::empty());
    } else {
        lemma_rows_front(t, start, n - 1);
    }
}
proof fn lemma_rows_decode(t: Seq<(PosKey, u16)>, start: int, n: int, rest: Seq<u8>)
    requires 0 <= start <= n <= t.len(), forall|i: int| start <= i < n ==> key_fits(#[trigger] t[i].0)
    ensures dec_rows(rows_bytes(t, start, n) + rest, n - start) == Some((rest, Seq::new((n - start) as nat, |i: int| t[start + i].0)))
    decreases n - start
{
    let want = Seq::new((n - start) as nat, |i: int| t[start + i].0);
    if start == n {
        assert(rows_bytes(t, start, n) + rest =~= rest);
        assert(want =~= Seq::<PosKey>::empty());
    } else {
        let k = t[start].0;
        lemma_rows_front(t, start, n);
        lemma_rows_decode(t, start + 1, n, rest);
        let tail = rows_bytes(t, start + 1, n) + rest;
        lemma_row_is_tail(k);
        assert(rows_bytes(t, start, n) + rest =~= fields_tail(k, 0) + tail);
        lemma_fields_decode(k, 0, tail);
        assert(k.subrange(0, 6) =~= k);
        let later = Seq::new((n - start - 1) as nat, |i: int| t[start + 1 + i].0);
        assert(seq![k] + later =~= want);
    }
}
/// C12 / C05: reading back the part-of-speech table a dictionary was compiled with yields exactly the NEW parts of speech, in id
/// order, with every string intact - for any number of rows below 65,536 and strings that fit their field (what a successful
/// write_pos_table established: Utf16Writer::write refuses longer strings)
proof fn theorem_pos_table_roundtrip(t: Seq<(PosKey, u16)>, start: int, rest: Seq<u8>)
    requires 0 <= start <= t.len(), t.len() - start <= 0xffff, forall|i: int| start <= i < t.len() ==> key_fits(#[trigger] t[i].0)
    ensures dec_pos_table(le16u((t.len() - start) as u16) + rows_bytes(t, start, t.len() as int) + rest)
        == Some((rest, Seq::new((t.len() - start) as nat, |i: int| t[start + i].0)))
{
    let n = t.len() as int;
    let body = rows_bytes(t, start, n) + rest;
    lemma_dec_u16((n - start) as u16, body);
    assert(le16u((n - start) as u16) + rows_bytes(t, start, n) + rest =~= le16u((n - start) as u16) + body);
    lemma_rows_decode(t, start, n, rest);
}

} // verus!
fn main() {}
